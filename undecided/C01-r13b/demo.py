"""
Round-trip demonstration for property C01.

Every scenario below is a small logging program.  It runs with a
FileDestination writing JSON lines into a StringIO, the lines are decoded and
fed to eliot.parse.Parser, and the parsed forest is compared with the tree the
program says it executed: one task per top-level action (plus one per message
logged outside any action), same shape, child order, types, statuses and field
values.  Run-dependent values (uuids, timestamps, traceback text) are
normalised away.

A large part of the scenarios exercise failed actions and tracebacks whose
extra fields come from ``register_exception_extractor``: exact class, fallback
to a base class, most specific class first, multiple inheritance, the built-in
OSError extractor, extractors that raise, extractors that log, and extractors
registered (or replaced) at various points in the life of the program.

Exit status 0 means every check passed.
"""

import io
import json
import sys
import threading
import warnings

warnings.simplefilter("ignore", DeprecationWarning)

from eliot import (
    ActionType,
    Field,
    FileDestination,
    Message,
    MessageType,
    add_destinations,
    current_action,
    fields,
    log_call,
    log_message,
    preserve_context,
    register_exception_extractor,
    remove_destination,
    start_action,
    start_task,
    write_traceback,
)
from eliot.parse import Parser
from eliot._action import WrittenAction
from eliot._message import WrittenMessage


# ---------------------------------------------------------------------------
# Expected-tree vocabulary
# ---------------------------------------------------------------------------


def A(type, status, start=None, end=None, children=()):
    """An action node."""
    return ("action", type, status, dict(start or {}), dict(end or {}), list(children))


def M(type, **fields):
    """A message node."""
    return ("message", type, fields)


def path(cls):
    return "%s.%s" % (cls.__module__, cls.__name__)


def failed(exc, **extra):
    """End fields of an action failed by C{exc}."""
    result = dict(extra)
    result["exception"] = path(exc.__class__)
    result["reason"] = str(exc)
    return result


def TB(exc, **extra):
    """An eliot:traceback message for C{exc}."""
    return M("eliot:traceback", **failed(exc, **extra))


# ---------------------------------------------------------------------------
# Normalising what the parser produced
# ---------------------------------------------------------------------------


def plain(value):
    """Turn pyrsistent containers (if any) into plain JSON-like values."""
    if hasattr(value, "items"):
        return {k: plain(v) for k, v in value.items()}
    if isinstance(value, (list, tuple)) or value.__class__.__name__ == "PVector":
        return [plain(v) for v in value]
    return value


def normalise(node):
    if isinstance(node, WrittenMessage):
        contents = plain(node.contents)
        message_type = contents.pop("message_type")
        if message_type == "eliot:traceback":
            text = contents.pop("traceback")
            assert isinstance(text, str) and text, "traceback text missing"
            assert contents["exception"].rsplit(".", 1)[-1] in text, text
        return ("message", message_type, contents)
    assert isinstance(node, WrittenAction), node
    assert node.start_message is not None, "action without start message"
    assert node.end_message is not None, "action without end message"
    start = plain(node.start_message.contents)
    end = plain(node.end_message.contents)
    action_type = start.pop("action_type")
    assert end.pop("action_type") == action_type
    assert start.pop("action_status") == "started"
    status = end.pop("action_status")
    assert node.start_message.timestamp <= node.end_message.timestamp
    return (
        "action",
        action_type,
        status,
        start,
        end,
        [normalise(child) for child in node.children],
    )


def count_messages(node):
    if node[0] == "message":
        return 1
    return 2 + sum(count_messages(child) for child in node[5])


def describe(node, indent=0):
    pad = "  " * indent
    if node[0] == "message":
        return "%s- message %r %r\n" % (pad, node[1], node[2])
    out = "%s+ action %r %s start=%r end=%r\n" % (pad, node[1], node[2], node[3], node[4])
    for child in node[5]:
        out += describe(child, indent + 1)
    return out


FAILURES = []
CHECKED = [0]


def run(name, program):
    """
    Run C{program} (which returns the forest it executed, in the order the
    tasks were begun) and compare with what the parser rebuilds from the log.
    """
    buf = io.StringIO()
    destination = FileDestination(file=buf)
    add_destinations(destination)
    try:
        expected = program()
    finally:
        remove_destination(destination)
    CHECKED[0] += 1
    problems = []
    try:
        assert current_action() is None, "action context leaked"
        lines = buf.getvalue().splitlines()
        decoded = [json.loads(line) for line in lines]
        # Nothing duplicated at the wire level:
        seen = set()
        first_seen = {}
        for index, message in enumerate(decoded):
            key = (message["task_uuid"], tuple(message["task_level"]))
            assert key not in seen, "duplicate task level %r" % (key,)
            seen.add(key)
            first_seen.setdefault(message["task_uuid"], index)
        tasks = list(Parser.parse_stream(decoded))
        uuids = [task.root().task_uuid for task in tasks]
        assert len(set(uuids)) == len(uuids), "a task was split in two"
        for task in tasks:
            assert task.is_complete(), "incomplete task"
        tasks.sort(key=lambda task: first_seen[task.root().task_uuid])
        parsed = [normalise(task.root()) for task in tasks]
        assert len(decoded) == sum(count_messages(node) for node in expected), (
            "%d lines logged, %d expected"
            % (len(decoded), sum(count_messages(node) for node in expected))
        )
        if parsed != expected:
            problems.append(
                "parsed forest differs from executed forest\n--- executed:\n%s--- parsed:\n%s"
                % (
                    "".join(describe(node) for node in expected),
                    "".join(describe(node) for node in parsed),
                )
            )
    except AssertionError as e:
        problems.append("assertion failed: %s" % (e,))
    if problems:
        FAILURES.append(name)
        print("FAIL %s" % (name,))
        for problem in problems:
            print("    " + problem.replace("\n", "\n    "))
    else:
        print("ok   %s" % (name,))


# ---------------------------------------------------------------------------
# Exception classes used by the scenarios
# ---------------------------------------------------------------------------


class Plain(Exception):
    pass


class Base(Exception):
    pass


class Mid(Base):
    pass


class Leaf(Mid):
    pass


class Leaf2(Mid):
    pass


class Sibling(Base):
    pass


class Mixed(Leaf, OSError):
    pass


class Broken(Exception):
    pass


class BrokenChild(Broken):
    pass


class Chatty(Exception):
    pass


class Typed(Exception):
    pass


class TypedChild(Typed):
    pass


class Remote(Exception):
    pass


class RemoteChild(Remote):
    pass


class BadStr(Exception):
    def __str__(self):
        raise RuntimeError("no str for you")


# ---------------------------------------------------------------------------
# Scenarios: general shape of programs
# ---------------------------------------------------------------------------

VALUES = {
    "text": "snöwman ☃ \"quoted\" \\ back\nline",
    "number": 12345678901234,
    "negative": -7,
    "real": 0.25,
    "flag": True,
    "nothing": None,
    "items": [1, "two", [3.5, None, {"deep": [True, False]}]],
    "mapping": {"a": {"b": {"c": []}}, "": "empty key"},
}


def program_basic():
    with start_action(action_type="app:root", **VALUES) as root:
        log_message("app:first", **VALUES)
        with start_action(action_type="app:child", n=1):
            log_message("app:inner", n=2)
        try:
            with start_action(action_type="app:failing", n=3):
                log_message("app:doomed")
                raise ValueError("bad value", 42)
        except ValueError as e:
            error = e
        Message.log(message_type="app:legacy", legacy=True)
        Message.new(message_type="app:bound", a=1).bind(b=2).write()
        root.add_success_fields(total=3, **VALUES)
    log_message("app:outside", where="nowhere")
    return [
        A(
            "app:root",
            "succeeded",
            VALUES,
            dict(VALUES, total=3),
            [
                M("app:first", **VALUES),
                A("app:child", "succeeded", {"n": 1}, {}, [M("app:inner", n=2)]),
                A("app:failing", "failed", {"n": 3}, failed(error), [M("app:doomed")]),
                M("app:legacy", legacy=True),
                M("app:bound", a=1, b=2),
            ],
        ),
        M("app:outside", where="nowhere"),
    ]


def program_explicit_and_context():
    action = start_action(action_type="app:explicit", x=1)
    with action.context():
        log_message("app:in-context")
        inner = start_action(action_type="app:inner-explicit")
        inner.run(log_message, "app:in-run", y=2)
        inner.add_success_fields(done=True)
        inner.finish()
        inner.finish()  # second finish is a no-op
    action.run(lambda: log_message("app:again"))
    with start_task(action_type="app:task-in-between"):
        log_message("app:task-message")
    error = KeyError("missing")
    action.finish(error)
    action.finish()
    return [
        A(
            "app:explicit",
            "failed",
            {"x": 1},
            failed(error),
            [
                M("app:in-context"),
                A(
                    "app:inner-explicit",
                    "succeeded",
                    {},
                    {"done": True},
                    [M("app:in-run", y=2)],
                ),
                M("app:again"),
            ],
        ),
        A("app:task-in-between", "succeeded", {}, {}, [M("app:task-message")]),
    ]


def program_start_task_inside_action():
    with start_action(action_type="app:outer"):
        with start_task(action_type="app:independent", k="v"):
            log_message("app:in-task")
        log_message("app:after-task")
    return [
        A("app:outer", "succeeded", {}, {}, [M("app:after-task")]),
        A("app:independent", "succeeded", {"k": "v"}, {}, [M("app:in-task")]),
    ]


def program_log_call():
    @log_call(action_type="app:add")
    def add(x, y=10):
        log_message("app:adding", x=x, y=y)
        return x + y

    @log_call(action_type="app:selective", include_args=["b"], include_result=False)
    def selective(a, b):
        return a

    @log_call(action_type="app:boom")
    def boom(x):
        raise Plain("boom %s" % (x,))

    with start_action(action_type="app:calls"):
        add(1)
        add(2, y=3)
        selective(5, 6)
        try:
            boom(7)
        except Plain as e:
            error = e
    add(100, 200)
    return [
        A(
            "app:calls",
            "succeeded",
            {},
            {},
            [
                A("app:add", "succeeded", {"x": 1, "y": 10}, {"result": 11}, [M("app:adding", x=1, y=10)]),
                A("app:add", "succeeded", {"x": 2, "y": 3}, {"result": 5}, [M("app:adding", x=2, y=3)]),
                A("app:selective", "succeeded", {"b": 6}, {}, []),
                A("app:boom", "failed", {"x": 7}, failed(error), []),
            ],
        ),
        A("app:add", "succeeded", {"x": 100, "y": 200}, {"result": 300}, [M("app:adding", x=100, y=200)]),
    ]


def program_typed():
    KEY = Field.for_types("key", [int], "a key")
    UPPER = Field("name", lambda s: s.upper(), "upper-cased name")
    RESULT = Field.for_types("result", [str], "a result")
    LOOKUP = ActionType("typed:lookup", [KEY, UPPER], [RESULT], "look something up")
    NOTE = MessageType("typed:note", fields(UPPER, count=int), "a note")
    with LOOKUP(key=1, name="abc") as action:
        NOTE.log(name="xyz", count=2)
        NOTE(name="old", count=3).write()
        action.add_success_fields(result="found")
    try:
        with LOOKUP.as_task(key=2, name="def"):
            raise Plain("typed failure")
    except Plain as e:
        error = e
    return [
        A(
            "typed:lookup",
            "succeeded",
            {"key": 1, "name": "ABC"},
            {"result": "found"},
            [M("typed:note", name="XYZ", count=2), M("typed:note", name="OLD", count=3)],
        ),
        A("typed:lookup", "failed", {"key": 2, "name": "DEF"}, failed(error), []),
    ]


def program_deep_and_wide():
    depth = 40
    breadth = 25
    actions = []
    for level in range(depth):
        action = start_action(action_type="deep:%d" % (level,), level=level)
        action.__enter__()
        actions.append(action)
    for i in range(breadth):
        log_message("wide:message", i=i)
        with start_action(action_type="wide:action", i=i):
            pass
    for action in reversed(actions):
        action.__exit__(None, None, None)
    children = []
    for i in range(breadth):
        children.append(M("wide:message", i=i))
        children.append(A("wide:action", "succeeded", {"i": i}, {}, []))
    node = None
    for level in reversed(range(depth)):
        node = A("deep:%d" % (level,), "succeeded", {"level": level}, {}, children)
        children = [node]
    return [node]


def program_traceback_in_action():
    try:
        with start_action(action_type="tb:outer"):
            try:
                raise Plain("handled")
            except Plain as e:
                handled = e
                write_traceback()
            raise BadStr()
    except BadStr as e:
        bad = e
    return [
        A(
            "tb:outer",
            "failed",
            {},
            {
                "exception": path(BadStr),
                "reason": "eliot: unknown, str() raised exception",
            },
            [TB(handled)],
        )
    ]


# ---------------------------------------------------------------------------
# Scenarios: exception extractors
# ---------------------------------------------------------------------------


def fail_with(exc, label):
    """
    Fail two nested actions with C{exc}, then log its traceback outside of any
    action.
    """
    try:
        with start_action(action_type="x:outer", label=label):
            with start_action(action_type="x:inner"):
                log_message("x:before")
                raise exc
    except exc.__class__:
        write_traceback()


def failed_with(exc, label, **extra):
    """The forest C{fail_with} executes when C{extra} are the extracted fields."""
    return [
        A(
            "x:outer",
            "failed",
            {"label": label},
            failed(exc, **extra),
            [A("x:inner", "failed", {}, failed(exc, **extra), [M("x:before")])],
        ),
        TB(exc, **extra),
    ]


def extractor_program(steps):
    """
    Build a program out of C{(exception, extra fields)} pairs.
    """

    def program():
        expected = []
        for index, (exc, extra) in enumerate(steps):
            fail_with(exc, index)
            expected.extend(failed_with(exc, index, **extra))
        return expected

    return program


def scenario_extractors():
    # 1. Nothing registered for this family yet.
    run(
        "extractors: none registered",
        extractor_program(
            [
                (Leaf("l0"), {}),
                (Mid("m0"), {}),
                (Base("b0"), {}),
                (Sibling("s0"), {}),
                (Plain("p0"), {}),
            ]
        ),
    )

    # 2. Built-in OSError extractor, before and after a more specific one.
    run(
        "extractors: OSError default",
        extractor_program(
            [
                (OSError(13, "denied"), {"errno": 13}),
                (FileNotFoundError(2, "gone", "/nowhere"), {"errno": 2}),
                (PermissionError(1, "no"), {"errno": 1}),
            ]
        ),
    )
    register_exception_extractor(FileNotFoundError, lambda e: {"missing": e.filename})
    run(
        "extractors: OSError subclass registered later",
        extractor_program(
            [
                (FileNotFoundError(2, "gone", "/nowhere"), {"missing": "/nowhere"}),
                (PermissionError(1, "no"), {"errno": 1}),
                (OSError(5, "io"), {"errno": 5}),
            ]
        ),
    )

    # 3. Register for the base class: the class and all its subclasses, seen
    #    before or not, now get the fields.
    register_exception_extractor(Base, lambda e: {"base_code": e.args[0]})
    run(
        "extractors: base class registered after failures were logged",
        extractor_program(
            [
                (Base("b1"), {"base_code": "b1"}),
                (Mid("m1"), {"base_code": "m1"}),
                (Leaf("l1"), {"base_code": "l1"}),
                (Sibling("s1"), {"base_code": "s1"}),
                (Leaf2("k1"), {"base_code": "k1"}),
                (Plain("p1"), {}),
            ]
        ),
    )

    # 4. A more specific class wins, wherever it sits and whenever it came.
    register_exception_extractor(Leaf, lambda e: {"leaf_code": e.args[0]})
    run(
        "extractors: most specific class first",
        extractor_program(
            [
                (Leaf("l2"), {"leaf_code": "l2"}),
                (Mid("m2"), {"base_code": "m2"}),
                (Base("b2"), {"base_code": "b2"}),
                (Mixed("x2"), {"leaf_code": "x2"}),
            ]
        ),
    )
    register_exception_extractor(Mid, lambda e: {"mid_code": e.args[0], "n": [1, {"z": None}]})
    run(
        "extractors: intermediate class registered last",
        extractor_program(
            [
                (Mid("m3"), {"mid_code": "m3", "n": [1, {"z": None}]}),
                (Leaf2("k3"), {"mid_code": "k3", "n": [1, {"z": None}]}),
                (Leaf("l3"), {"leaf_code": "l3"}),
                (Mixed("x3"), {"leaf_code": "x3"}),
                (Base("b3"), {"base_code": "b3"}),
                (Sibling("s3"), {"base_code": "s3"}),
            ]
        ),
    )

    # 5. Replacing an extractor replaces it for every class that falls back
    #    to it.
    register_exception_extractor(Base, lambda e: {"base_v2": len(e.args)})
    run(
        "extractors: extractor replaced",
        extractor_program(
            [
                (Sibling("s4"), {"base_v2": 1}),
                (Base("b4", "b"), {"base_v2": 2}),
                (Mid("m4"), {"mid_code": "m4", "n": [1, {"z": None}]}),
                (Leaf("l4"), {"leaf_code": "l4"}),
            ]
        ),
    )

    # 6. Extracted fields never override the computed exception / reason.
    register_exception_extractor(
        Plain, lambda e: {"reason": "overridden?", "exception": "nope", "kept": 1}
    )

    def program_no_override():
        exc = Plain("real reason")
        try:
            with start_action(action_type="x:override"):
                raise exc
        except Plain:
            pass
        return [A("x:override", "failed", {}, failed(exc, kept=1), [])]

    run("extractors: computed fields win in failed actions", program_no_override)


def scenario_broken_extractor():
    def extract(e):
        raise KeyError("nope")

    raised = KeyError("nope")

    def program_before():
        exc = BrokenChild("fine so far")
        fail_with(exc, "before")
        return failed_with(exc, "before")

    run("broken extractor: before registration", program_before)
    register_exception_extractor(Broken, extract)

    def program_with_block():
        exc = BrokenChild("oops")
        fail_with(exc, "broken")
        return [
            A(
                "x:outer",
                "failed",
                {"label": "broken"},
                failed(exc),
                [
                    A("x:inner", "failed", {}, failed(exc), [M("x:before")]),
                    # inner's __exit__ has already restored outer's context:
                    TB(raised),
                ],
            ),
            # outer's __exit__ runs the extractor outside any action:
            TB(raised),
            # and so does write_traceback():
            TB(raised),
            TB(exc),
        ]

    run("broken extractor: with blocks and traceback", program_with_block)

    def program_explicit():
        exc = Broken("explicit")
        action = start_action(action_type="x:explicit")
        with action.context():
            log_message("x:working")
            action.finish(exc)
        return [
            A("x:explicit", "failed", {}, failed(exc), [M("x:working"), TB(raised)])
        ]

    run("broken extractor: explicit finish inside own context", program_explicit)


def scenario_chatty_extractor():
    def program_before():
        exc = Chatty("quiet")
        fail_with(exc, "quiet")
        return failed_with(exc, "quiet")

    run("chatty extractor: before registration", program_before)

    def extract(e):
        log_message("x:extracting", arg=e.args[0])
        return {"chatty": True}

    register_exception_extractor(Chatty, extract)

    def program():
        exc = Chatty("hello")
        fail_with(exc, "chatty")
        note = M("x:extracting", arg="hello")
        return [
            A(
                "x:outer",
                "failed",
                {"label": "chatty"},
                failed(exc, chatty=True),
                [
                    A("x:inner", "failed", {}, failed(exc, chatty=True), [M("x:before")]),
                    note,
                ],
            ),
            note,
            note,
            TB(exc, chatty=True),
        ]

    run("chatty extractor: messages logged by the extractor", program)


def scenario_typed_and_log_call():
    FAILING = ActionType("typed:failing", [], [], "always fails")

    def program(extra_for):
        def run_it():
            expected = []
            for kind in (TypedChild, Typed):
                exc = kind("typed")
                extra = extra_for(exc)
                try:
                    with FAILING():
                        raise exc
                except Typed:
                    pass
                expected.append(A("typed:failing", "failed", {}, failed(exc, **extra), []))
                try:
                    with start_action(action_type="x:caller"):
                        call_failing(kind)
                except Typed as e:
                    raised = e
                expected.append(
                    A(
                        "x:caller",
                        "failed",
                        {},
                        failed(raised, **extra_for(raised)),
                        [
                            A(
                                "x:call_failing",
                                "failed",
                                {"name": kind.__name__},
                                failed(raised, **extra_for(raised)),
                                [],
                            )
                        ],
                    )
                )
            return expected

        return run_it

    kinds = {"TypedChild": TypedChild, "Typed": Typed}

    @log_call(action_type="x:call_failing", include_args=["name"])
    def call_failing_by_name(name):
        raise kinds[name]("called " + name)

    def call_failing(kind):
        call_failing_by_name(kind.__name__)

    run("typed action and log_call fail: before registration", program(lambda exc: {}))
    register_exception_extractor(Typed, lambda e: {"typed_arg": e.args[0]})
    run(
        "typed action and log_call fail: after registration",
        program(lambda exc: {"typed_arg": exc.args[0]}),
    )


def scenario_threads():
    def program(extra_for):
        def run_it():
            parent_done = threading.Event()
            errors = []

            def worker(value):
                # Only start logging once the parent action has finished, so
                # the remote action's messages arrive after the parent's end.
                assert parent_done.wait(30)
                log_message("thread:working", value=value)
                raise RemoteChild(value)

            def guarded(callable, *args):
                try:
                    callable(*args)
                except Remote as e:
                    errors.append(e)

            with start_action(action_type="thread:parent"):
                log_message("thread:spawning")
                thread = threading.Thread(
                    target=guarded, args=(preserve_context(worker), "w1")
                )
                thread.start()
                log_message("thread:spawned")
            parent_done.set()
            thread.join(30)
            assert not thread.is_alive()
            [exc] = errors
            return [
                A(
                    "thread:parent",
                    "succeeded",
                    {},
                    {},
                    [
                        M("thread:spawning"),
                        A(
                            "eliot:remote_task",
                            "failed",
                            {},
                            failed(exc, **extra_for(exc)),
                            [M("thread:working", value="w1")],
                        ),
                        M("thread:spawned"),
                    ],
                )
            ]

        return run_it

    run("threads: remote task fails, nothing registered", program(lambda exc: {}))
    register_exception_extractor(Remote, lambda e: {"remote_value": e.args[0]})
    run(
        "threads: remote task fails, base class registered since",
        program(lambda exc: {"remote_value": exc.args[0]}),
    )


class HookedMeta(type):
    """
    Metaclass whose classes call C{HookedMeta.hook} whenever they are hashed,
    i.e. whenever they are looked up in a dictionary.  This lets a scenario
    run code at a chosen point in the middle of an extractor lookup, which is
    exactly what another thread registering an extractor at that moment
    would amount to.
    """

    hook = None

    def __hash__(cls):
        hook = HookedMeta.hook
        if hook is not None:
            hook()
        return type.__hash__(cls)


def scenario_registration_during_lookup():
    for k in range(1, 10):
        base = HookedMeta("RacyBase%d" % (k,), (Exception,), {})
        leaf = HookedMeta("RacyLeaf%d" % (k,), (base,), {})
        state = {"calls": 0, "fired": False}

        def register():
            register_exception_extractor(base, lambda e: {"racy": e.args[0]})

        def hook():
            state["calls"] += 1
            if state["calls"] == k and not state["fired"]:
                state["fired"] = True
                HookedMeta.hook = None
                register()

        # The first failure is logged while no destination is registered;
        # the k-th dictionary lookup of one of the two classes registers the
        # extractor for the base class.
        HookedMeta.hook = hook
        try:
            fail_with(leaf("first"), "first")
        finally:
            HookedMeta.hook = None
        if not state["fired"]:
            register()
        # Registration is over by now, so from here on the fields must be
        # there, for the subclass as well as for the class itself.
        run(
            "registration at dictionary lookup #%d of an earlier failure" % (k,),
            extractor_program(
                [
                    (leaf("second"), {"racy": "second"}),
                    (base("third"), {"racy": "third"}),
                ]
            ),
        )


def main():
    run("basic nesting, values, legacy messages", program_basic)
    run("explicit finish, run and context", program_explicit_and_context)
    run("start_task inside an action", program_start_task_inside_action)
    run("log_call", program_log_call)
    run("typed actions and messages", program_typed)
    run("deep and wide", program_deep_and_wide)
    run("traceback inside an action, exception without str", program_traceback_in_action)
    scenario_extractors()
    scenario_broken_extractor()
    scenario_chatty_extractor()
    scenario_typed_and_log_call()
    scenario_threads()
    scenario_registration_during_lookup()
    print("%d scenarios, %d failed" % (CHECKED[0], len(FAILURES)))
    if FAILURES:
        for name in FAILURES:
            print("  failed: %s" % (name,))
        return 1
    return 0


if __name__ == "__main__":
    sys.exit(main())
