"""
Demonstration for property C18: log_call is transparent.

For a collection of signatures (every parameter kind, defaults, parameter
names that coincide with names Eliot uses itself), valid and invalid argument
lists and all decorator options, compare the decorated function with the
undecorated one (result, raised exception object) and compare what was logged
with what ``inspect.signature(...).bind`` says Python binds.

Deterministic, single-threaded, no sleeps.  Exit status 0 = property holds.
"""

import inspect
import sys
import traceback

import eliot
from eliot import log_call, current_action, start_action, log_message
from eliot.parse import Parser

MESSAGES = []
eliot.add_destinations(MESSAGES.append)

FAILURES = []
CHECKS = [0]

RESERVED = ("action_status", "action_type", "timestamp", "task_uuid", "task_level")


def check(condition, description):
    CHECKS[0] += 1
    if not condition:
        FAILURES.append(description)
        print("FAIL:", description)


def outcome(callable_, args, kwargs):
    """Return ("ok", value) or ("raise", exception object)."""
    try:
        return ("ok", callable_(*args, **kwargs))
    except BaseException as e:  # noqa - we want the object, whatever it is
        return ("raise", e)


def bound_arguments(function, args, kwargs, include_args):
    """
    What Python binds, computed independently of eliot.  For a method pass the
    bound method: its signature has no self.
    """
    bound = inspect.signature(function).bind(*args, **kwargs)
    bound.apply_defaults()
    arguments = dict(bound.arguments)
    arguments.pop("self", None)
    if include_args is not None:
        arguments = {k: arguments[k] for k in include_args}
    for name in RESERVED:
        arguments.pop(name, None)
    return arguments


def normalise(message):
    """Drop the run-dependent / bookkeeping fields of a message."""
    return {k: v for (k, v) in message.items() if k not in RESERVED}


def check_call(label, function, args, kwargs, bound_to=None, **options):
    """
    Decorate C{function} with log_call(**options), call both variants and
    compare behaviour and log output.

    @param bound_to: for methods, the instance to bind both variants to.
    """
    decorated = log_call(**options)(function) if options else log_call(function)
    include_args = options.get("include_args")
    include_result = options.get("include_result", True)
    action_type = options.get(
        "action_type", "{}.{}".format(function.__module__, function.__qualname__)
    )

    # Wrapper keeps name, docstring and signature:
    check(decorated.__name__ == function.__name__, label + ": __name__ kept")
    check((decorated.__doc__ or "") == (function.__doc__ or ""), label + ": __doc__")
    check(
        inspect.signature(decorated) == inspect.signature(function),
        label + ": signature kept",
    )

    plain, logged = function, decorated
    if bound_to is not None:
        plain = function.__get__(bound_to)
        logged = decorated.__get__(bound_to)

    expected = outcome(plain, args, kwargs)
    before_context = current_action()
    del MESSAGES[:]
    actual = outcome(logged, args, kwargs)
    messages = list(MESSAGES)
    check(current_action() is before_context, label + ": context restored")

    check(actual[0] == expected[0], label + ": %r instead of %r" % (actual, expected))
    if expected[0] == "ok":
        check(
            actual[0] == "ok" and actual[1] == expected[1],
            label + ": result %r != %r" % (actual[1], expected[1]),
        )
    elif isinstance(expected[1], TypeError) and not getattr(
        function, "raises_itself", False
    ):
        # Invalid argument list: same exception type and text, nothing logged
        # (the function was never entered).
        # (Python names the function by __qualname__, the wrapper only keeps
        # __name__, so compare the text after the function's name.)
        check(
            type(actual[1]) is TypeError
            and str(actual[1]).split("()", 1)[0] == function.__name__
            and str(actual[1]).split("()", 1)[1] == str(expected[1]).split("()", 1)[1],
            label + ": binding error %r != %r" % (actual[1], expected[1]),
        )
        check(messages == [], label + ": invalid call logged %r" % (messages,))
        return
    else:
        # The function raises the very same object both times.
        check(
            actual[1] is expected[1],
            label + ": raised %r is not %r" % (actual[1], expected[1]),
        )

    # Exactly one action, with a start and an end message for it:
    own = [m for m in messages if "action_status" in m and m["action_type"] == action_type]
    check(len(own) == 2, label + ": expected start+end, got %r" % (messages,))
    if len(own) != 2:
        return
    start, end = own
    check(start["action_status"] == "started", label + ": first is start")
    check(start["task_level"][-1] == 1, label + ": start is first in action")
    binding = bound_arguments(plain, args, kwargs, include_args)
    check(
        normalise(start) == binding,
        label + ": start fields %r != %r" % (normalise(start), binding),
    )
    check(start["task_uuid"] == end["task_uuid"], label + ": same task")
    check(
        start["task_level"][:-1] == end["task_level"][:-1],
        label + ": start and end are siblings",
    )
    if expected[0] == "ok":
        check(end["action_status"] == "succeeded", label + ": succeeded")
        if include_result:
            check(
                normalise(end) == {"result": expected[1]},
                label + ": end fields %r" % (normalise(end),),
            )
        else:
            check(normalise(end) == {}, label + ": no result %r" % (normalise(end),))
    else:
        exc = expected[1]
        check(end["action_status"] == "failed", label + ": failed")
        check(
            end.get("exception")
            == "%s.%s" % (type(exc).__module__, type(exc).__name__),
            label + ": exception field %r" % (end.get("exception"),),
        )
        check(end.get("reason") == str(exc), label + ": reason field")
        check("result" not in end, label + ": no result on failure")
    # At top level the messages form exactly one complete task tree:
    if before_context is None:
        trees = list(Parser.parse_stream(messages))
        check(
            len(trees) == 1 and trees[0].root().action_type == action_type,
            label + ": parses into one task",
        )


# --------------------------------------------------------------------------
# The functions under test.
# --------------------------------------------------------------------------


def plain(x, y):
    "Add."
    return x + y


def defaults(x, y=1, z=(2,)):
    return (x, y, z)


def star(x, *y, **z):
    return (x, y, z)


def every_kind(a, b=2, /, c=3, *rest, d, e=5, **extra):
    """All five kinds of parameter."""
    return (a, b, c, rest, d, e, extra)


def kwonly(*, key, other="o"):
    return (key, other)


def posonly(a, b="b", /):
    return (a, b)


def no_params():
    return "nothing"


def returns_none(x):
    pass


def raiser(exc, *, note="n"):
    raise exc


raiser.raises_itself = True


SEEN = []


def inner_logging(x, *, f="eff"):
    """Logs from inside; the action in context must be log_call's action."""
    action = current_action()
    SEEN.append(action)
    log_message("inside", x=x)
    with start_action(action_type="nested", x=x):
        pass
    if action is not None:
        action.add_success_fields(extra=f)
    return x * 2


# Names that coincide with the names Eliot uses for its own parameters.  The
# positional-or-keyword ones:
def eliot_names(logger, action_type="a", _serializers=None, fields=None, f=None):
    return (logger, action_type, _serializers, fields, f)


def more_names(wrapped_function, include_args=1, include_result=2, args=3, kwargs=4):
    return (wrapped_function, include_args, include_result, args, kwargs)


def message_names(message_type, exception=None, task_id=None, func=None, result=9):
    return (message_type, exception, task_id, func, result)


# ... the keyword-only ones:
def kw_eliot_names(x, *, logger=None, serializers=None, exception=None, func=None):
    return (x, logger, serializers, exception, func)


def kw_callable(items, *, f=None):
    """Like map(): apply f to the items."""
    return [f(i) if f else i for i in items]


def kw_required_f(*, f):
    return f


def kw_self(x, *, self=None):
    return (x, self)


# ... and arbitrary keywords collected by **kwargs:
def collect(**attrs):
    return sorted(attrs.items())


def collect_after(first, *rest, **attrs):
    return (first, rest, sorted(attrs.items()))


class Thing(object):
    factor = 3

    def method(self, x, y=2):
        """A method."""
        return self.factor * x * y

    def method_kw(self, x, *, f=1, **options):
        return (self.factor, x, f, sorted(options.items()))

    def method_raises(self, exc):
        raise exc

    method_raises.raises_itself = True


def main():
    thing = Thing()
    boom = ValueError("boom")
    type_error = TypeError("raised by the function itself")

    valid = [
        ("plain", plain, (1, 2), {}),
        ("plain-kw", plain, (1,), {"y": 5}),
        ("plain-all-kw", plain, (), {"y": 5, "x": 7}),
        ("defaults-missing", defaults, (1,), {}),
        ("defaults-given", defaults, (1, 9), {"z": "zz"}),
        ("star", star, (2, 3, 4), {"a": 1, "b": 2}),
        ("star-empty", star, (2,), {}),
        ("every-kind-min", every_kind, (1,), {"d": 4}),
        ("every-kind-max", every_kind, (1, 20, 30, 40, 50), {"d": 4, "e": 6, "g": 7}),
        ("kwonly", kwonly, (), {"key": "k"}),
        ("kwonly-both", kwonly, (), {"other": 1, "key": 2}),
        ("posonly", posonly, (1,), {}),
        ("posonly-both", posonly, (1, 2), {}),
        ("no-params", no_params, (), {}),
        ("returns-none", returns_none, (1,), {}),
        ("eliot-names", eliot_names, ("L",), {}),
        ("eliot-names-kw", eliot_names, (), {"logger": "L", "fields": {"a": 1}, "f": 3}),
        ("eliot-names-pos", eliot_names, ("L", "t", "s", "fi", len), {}),
        ("more-names", more_names, ("w",), {"args": (1,), "kwargs": {"k": 1}}),
        ("message-names", message_names, ("mt",), {"func": 1, "result": 2}),
        ("kw-eliot-names", kw_eliot_names, (1,), {"logger": "L", "func": 2}),
        ("kw-eliot-names-2", kw_eliot_names, (1,), {"serializers": 1, "exception": 2}),
        ("kw-callable-default", kw_callable, ([1, 2],), {}),
        ("kw-callable", kw_callable, ([1, 2],), {"f": str}),
        ("kw-required-f", kw_required_f, (), {"f": 12}),
        ("kw-self-default", kw_self, (1,), {}),
        ("kw-self", kw_self, (1,), {"self": 2}),
        ("collect-empty", collect, (), {}),
        ("collect", collect, (), {"a": 1, "logger": 2, "fields": 3}),
        ("collect-f", collect, (), {"f": 1, "g": 2}),
        ("collect-self", collect, (), {"self": 1}),
        ("collect-after", collect_after, (1, 2), {"f": 3, "func": 4, "args": 5}),
    ]
    raising = [
        ("raise-value-error", raiser, (boom,), {}),
        ("raise-type-error", raiser, (type_error,), {"note": 1}),
        ("raise-keyboard-interrupt", raiser, (KeyboardInterrupt("stop"),), {}),
        ("raise-system-exit", raiser, (SystemExit(3),), {}),
        ("raise-stop-iteration", raiser, (StopIteration(1),), {}),
        ("raise-generator-exit", raiser, (GeneratorExit(),), {}),
        ("raise-os-error", raiser, (OSError(5, "io"),), {}),
    ]
    invalid = [
        ("invalid-missing", plain, (1,), {}),
        ("invalid-too-many", plain, (1, 2, 3), {}),
        ("invalid-unknown-kw", plain, (1, 2), {"q": 1}),
        ("invalid-duplicate", plain, (1, 2), {"x": 1}),
        ("invalid-kwonly-positional", kwonly, ("k",), {}),
        ("invalid-kwonly-missing", kw_required_f, (), {}),
        ("invalid-every-kind", every_kind, (1,), {}),
        ("invalid-no-params", no_params, (1,), {}),
    ]

    for label, function, args, kwargs in valid + raising + invalid:
        check_call(label, function, args, kwargs)
        # The same with each decorator option:
        check_call(label + "[type]", function, args, kwargs, action_type="my:type")
        check_call(label + "[noresult]", function, args, kwargs, include_result=False)
        check_call(label + "[noargs]", function, args, kwargs, include_args=[])
        names = [
            n for n in inspect.signature(function).parameters if n != "self"
        ]
        check_call(
            label + "[some]",
            function,
            args,
            kwargs,
            include_args=names[-1:],
            include_result=False,
            action_type="some",
        )
        check_call(
            label + "[all-reversed]", function, args, kwargs, include_args=names[::-1]
        )

    # Methods: self is passed through but not logged.
    methods = [
        ("method", Thing.method, (2,), {}),
        ("method-kw", Thing.method, (), {"x": 2, "y": 5}),
        ("method-kw-default", Thing.method_kw, (2,), {}),
        ("method-kw-options", Thing.method_kw, (2,), {"verbose": True, "logger": 1}),
        ("method-kw-f", Thing.method_kw, (2,), {"f": 7}),
        ("method-kw-f-option", Thing.method_kw, (2,), {"f": 7, "func": 8}),
        ("method-raises", Thing.method_raises, (boom,), {}),
        ("method-invalid", Thing.method, (), {}),
        ("method-invalid-kw", Thing.method_kw, (1, 2), {}),
    ]
    for label, function, args, kwargs in methods:
        check_call(label, function, args, kwargs, bound_to=thing)
        check_call(
            label + "[noresult]", function, args, kwargs, bound_to=thing,
            include_result=False,
        )
        check_call(
            label + "[x]", function, args, kwargs, bound_to=thing,
            include_args=["x"] if "x" in inspect.signature(function).parameters else [],
        )

    # Inside another action the logged action is a child of it, and the
    # surrounding context is restored, for success and failure alike.
    with start_action(action_type="outer") as outer:
        for label, function, args, kwargs in valid[:6] + raising[:3] + invalid[:2]:
            check_call("nested:" + label, function, args, kwargs)
        check(current_action() is outer, "outer action still current")
        del MESSAGES[:]
        log_call(kw_callable)([1], f=abs)
        # outer's start message took level 1, the nine actions above 2..10:
        check(
            [m["task_level"] for m in MESSAGES] == [[11, 1], [11, 2]],
            "child task levels %r" % ([m["task_level"] for m in MESSAGES],),
        )
    check(current_action() is None, "no action left in context")

    # Messages and actions logged by the function itself are children of the
    # logged action, and fields it adds to its action are kept.
    for kwargs in ({}, {"f": "given"}):
        del MESSAGES[:], SEEN[:]
        check(log_call(inner_logging)(5, **kwargs) == 10, "inner logging result")
        check(
            [(m["task_level"], m.get("message_type", m.get("action_type")))
             for m in MESSAGES]
            == [([1], "__main__.inner_logging"), ([2], "inside"), ([3, 1], "nested"),
                ([3, 2], "nested"), ([4], "__main__.inner_logging")],
            "inner logging tree %r" % (MESSAGES,),
        )
        check(len(set(m["task_uuid"] for m in MESSAGES)) == 1, "inner logging: one task")
        check(
            normalise(MESSAGES[0]) == {"x": 5, "f": kwargs.get("f", "eff")}
            and normalise(MESSAGES[-1])
            == {"result": 10, "extra": kwargs.get("f", "eff")},
            "inner logging fields %r" % (MESSAGES,),
        )
        check(
            len(SEEN) == 1 and SEEN[0] is not None and SEEN[0].task_uuid
            == MESSAGES[0]["task_uuid"],
            "function ran in the context of the logged action",
        )

    # Recursion: each call gets its own action, nested in the caller's.
    @log_call(action_type="fact")
    def fact(n, *, f=1):
        return f if n <= 1 else fact(n - 1, f=f * n)

    del MESSAGES[:]
    check(fact(4) == 24, "recursive result")
    check(
        [m["task_level"] for m in MESSAGES]
        == [[1], [2, 1], [2, 2, 1], [2, 2, 2, 1], [2, 2, 2, 2], [2, 2, 3], [2, 3], [3]],
        "recursive task levels %r" % ([m["task_level"] for m in MESSAGES],),
    )
    check(
        [m.get("f", m.get("result")) for m in MESSAGES] == [1, 4, 12, 24, 24, 24, 24, 24],
        "recursive fields",
    )

    # Decorator-factory results can be re-used and further specialised:
    factory = log_call(include_result=False)
    check_one = factory(plain)
    check_two = factory(star, include_result=True)
    del MESSAGES[:]
    check(check_one(1, 2) == 3 and check_two(1, 2, f=3) == (1, (2,), {"f": 3}), "factory")
    check(
        [normalise(m) for m in MESSAGES]
        == [{"x": 1, "y": 2}, {}, {"x": 1, "y": (2,), "z": {"f": 3}},
            {"result": (1, (2,), {"f": 3})}],
        "factory messages %r" % ([normalise(m) for m in MESSAGES],),
    )

    # Invalid include_args are refused when decorating:
    try:
        log_call(include_args=["x", "nope"])(plain)
    except ValueError:
        pass
    else:
        check(False, "bad include_args accepted")

    print("%d checks, %d failures" % (CHECKS[0], len(FAILURES)))
    return 1 if FAILURES else 0


if __name__ == "__main__":
    try:
        status = main()
    except BaseException:
        traceback.print_exc()
        status = 2
    sys.exit(status)
