"""
Demonstration for property C09: parsing is order-independent and detects
task completeness exactly.

Builds a handful of well-formed tasks with eliot itself (single message, flat
action, nested / failed actions, an empty action, a task with remote
sub-tasks continued through ``serialize_task_id`` / ``continue_task``) and
feeds their messages to ``Task.add``, ``Parser.add`` and
``Parser.parse_stream`` in many arrival orders, subsets and interleavings.
Every result is compared with an independent model computed from the message
dictionaries alone.

Exit status 0 when every check passes, 1 otherwise.
"""

import itertools
import random
import sys
import warnings

warnings.simplefilter("ignore", DeprecationWarning)

from eliot import start_action, Message, Action
from eliot.testing import MemoryLogger
from eliot.parse import Parser, Task
from eliot._action import WrittenAction
from eliot._message import WrittenMessage

FAILURES = []


def check(condition, description):
    if not condition:
        FAILURES.append(description)
        if len(FAILURES) <= 15:
            print("FAIL:", description)
    return condition


# ---------------------------------------------------------------------------
# Building tasks
# ---------------------------------------------------------------------------


def solo_task():
    logger = MemoryLogger()
    Message.new(message_type="solo", x=1).write(logger)
    return list(logger.messages)


def flat_task():
    logger = MemoryLogger()
    with start_action(logger, action_type="flat", a=1) as action:
        action.log(message_type="one")
        action.log(message_type="two")
        action.log(message_type="three")
    return list(logger.messages)


def empty_task():
    logger = MemoryLogger()
    with start_action(logger, action_type="empty"):
        pass
    return list(logger.messages)


def nested_task():
    logger = MemoryLogger()
    with start_action(logger, action_type="outer") as outer:
        outer.log(message_type="before")
        try:
            with start_action(logger, action_type="middle") as middle:
                with start_action(logger, action_type="inner") as inner:
                    inner.log(message_type="deep")
                middle.log(message_type="after-inner")
                raise RuntimeError("boom")
        except RuntimeError:
            pass
        with start_action(logger, action_type="sibling"):
            pass
        outer.log(message_type="last")
    return list(logger.messages)


def remote_task():
    """
    A task spread over three "processes", each with its own logger.
    """
    local, remote1, remote2 = MemoryLogger(), MemoryLogger(), MemoryLogger()
    with start_action(local, action_type="request") as request:
        first_id = request.serialize_task_id()
        request.log(message_type="sent")
        with Action.continue_task(remote1, first_id) as remote_action:
            remote_action.log(message_type="received")
            with start_action(remote1, action_type="work") as work:
                second_id = work.serialize_task_id()
                with Action.continue_task(
                    remote2, second_id, action_type="subworker"
                ) as sub:
                    sub.log(message_type="deepest")
            remote_action.log(message_type="replying")
        request.log(message_type="got-reply")
    # The three logs are only ever merged by the reader:
    return list(local.messages) + list(remote2.messages) + list(remote1.messages)


def key(message):
    return (message["task_uuid"], tuple(message["task_level"]))


# ---------------------------------------------------------------------------
# Independent model of what the parser should produce
# ---------------------------------------------------------------------------


def model_tree(messages):
    """
    Canonical nested-tuple form of the (partial) tree the given messages of a
    single task describe.
    """
    if (
        len(messages) == 1
        and messages[0].get("action_type") is None
        and messages[0]["task_level"] == [1]
    ):
        return ("message", (1,))
    nodes = {}

    def node(level):
        if level not in nodes:
            nodes[level] = {"start": None, "end": None, "children": {}}
            if level:
                node(level[:-1])["children"][level] = level
        return nodes[level]

    for message in messages:
        level = tuple(message["task_level"])
        if message.get("action_type") is not None:
            owner = node(level[:-1])
            if message["action_status"] == "started":
                owner["start"] = level
            else:
                owner["end"] = level
        else:
            node(level[:-1])["children"][level] = ("message", level)

    def freeze(level):
        data = nodes[level]
        children = []
        for child_level in sorted(data["children"]):
            child = data["children"][child_level]
            if isinstance(child, tuple) and child and child[0] == "message":
                children.append(child)
            else:
                children.append(freeze(child_level))
        return ("action", level, data["start"], data["end"], tuple(children))

    return freeze(())


def canonical(node):
    """
    The same canonical form, computed from what the parser built.
    """
    if isinstance(node, WrittenMessage):
        return ("message", tuple(node.task_level.as_list()))
    assert isinstance(node, WrittenAction), node
    start = node.start_message
    end = node.end_message
    return (
        "action",
        tuple(node.task_level.as_list()),
        tuple(start.task_level.as_list()) if start is not None else None,
        tuple(end.task_level.as_list()) if end is not None else None,
        tuple(canonical(child) for child in node.children),
    )


def flatten(node):
    """
    All message dictionaries referenced by a parsed tree.
    """
    if isinstance(node, WrittenMessage):
        return [dict(node.as_dict())]
    result = []
    if node.start_message is not None:
        result.append(dict(node.start_message.as_dict()))
    for child in node.children:
        result.extend(flatten(child))
    if node.end_message is not None:
        result.append(dict(node.end_message.as_dict()))
    return result


def by_key(messages):
    return sorted(messages, key=key)


# ---------------------------------------------------------------------------
# Checks
# ---------------------------------------------------------------------------


def group(messages):
    groups = {}
    for message in messages:
        groups.setdefault(message["task_uuid"], []).append(message)
    return groups


def check_task(task, uuid, arrived, full, label):
    """
    ``task`` is what the parser produced for the ``arrived`` messages of the
    task whose full message list is ``full``.
    """
    root = task.root()
    ok = check(root.task_uuid == uuid, "%s: wrong task uuid" % (label,))
    ok &= check(
        by_key(flatten(root)) == by_key(arrived),
        "%s: tree of %s does not hold exactly the %d messages that arrived "
        "(it holds %d)" % (label, uuid[:8], len(arrived), len(flatten(root))),
    )
    ok &= check(
        canonical(root) == model_tree(arrived),
        "%s: tree of %s has the wrong shape" % (label, uuid[:8]),
    )
    expected_complete = len(arrived) == len(full)
    ok &= check(
        task.is_complete() == expected_complete,
        "%s: task %s is_complete()=%r with %d of %d messages"
        % (label, uuid[:8], task.is_complete(), len(arrived), len(full)),
    )
    return ok


def check_stream(messages, full_tasks, label):
    """
    Run ``Parser.parse_stream`` over ``messages`` and check everything the
    property promises.  ``full_tasks`` maps task uuid to the complete list of
    messages of that task.
    """
    arrived = group(messages)
    last_position = {}
    for position, message in enumerate(messages, 1):
        last_position[message["task_uuid"]] = position

    consumed = [0]
    ended = [False]

    def feed():
        for message in messages:
            consumed[0] += 1
            yield message
        ended[0] = True

    seen = {}
    try:
        for task in Parser.parse_stream(feed()):
            uuid = task.root().task_uuid
            seen.setdefault(uuid, []).append((task, consumed[0], ended[0]))
    except Exception as e:
        check(False, "%s: parse_stream raised %r" % (label, e))
        return False

    ok = check(
        sorted(seen) == sorted(arrived),
        "%s: parse_stream yielded tasks %r, expected %r"
        % (label, sorted(u[:8] for u in seen), sorted(u[:8] for u in arrived)),
    )
    for uuid, results in seen.items():
        ok &= check(
            len(results) == 1,
            "%s: task %s yielded %d times" % (label, uuid[:8], len(results)),
        )
        if uuid not in arrived:
            continue
        for task, position, stream_ended in results:
            ok &= check_task(task, uuid, arrived[uuid], full_tasks[uuid], label)
            if len(arrived[uuid]) == len(full_tasks[uuid]):
                ok &= check(
                    position == last_position[uuid] and not stream_ended,
                    "%s: complete task %s yielded after %d messages "
                    "(stream ended: %r), its last message was number %d"
                    % (label, uuid[:8], position, stream_ended, last_position[uuid]),
                )
            else:
                ok &= check(
                    stream_ended,
                    "%s: incomplete task %s yielded before the stream ended"
                    % (label, uuid[:8]),
                )
    return ok


def check_parser_add(messages, full_tasks, label):
    """
    The same through ``Parser.add`` / ``Parser.incomplete_tasks``.
    """
    arrived = group(messages)
    parser = Parser()
    so_far = {}
    completed_at = {}
    ok = True
    for position, message in enumerate(messages, 1):
        uuid = message["task_uuid"]
        so_far.setdefault(uuid, []).append(message)
        completed, parser = parser.add(message)
        if len(so_far[uuid]) == len(full_tasks[uuid]):
            ok &= check(
                len(completed) == 1,
                "%s: Parser.add did not report %s complete on its last message"
                % (label, uuid[:8]),
            )
        else:
            ok &= check(
                completed == [],
                "%s: Parser.add reported a task complete early" % (label,),
            )
        for task in completed:
            ok &= check(uuid not in completed_at, "%s: completed twice" % (label,))
            completed_at[uuid] = position
            ok &= check_task(task, uuid, so_far[uuid], full_tasks[uuid], label)
    remaining = parser.incomplete_tasks()
    expected_remaining = sorted(
        uuid for uuid in arrived if len(arrived[uuid]) != len(full_tasks[uuid])
    )
    ok &= check(
        sorted(t.root().task_uuid for t in remaining) == expected_remaining,
        "%s: Parser.incomplete_tasks() is wrong" % (label,),
    )
    for task in remaining:
        uuid = task.root().task_uuid
        if uuid in arrived:
            ok &= check_task(task, uuid, arrived[uuid], full_tasks[uuid], label)
    return ok


def check_single_task_orders(name, full, rng):
    """
    One task: every prefix of many arrival orders gives the right partial
    tree, the task is complete exactly at the last message, and the final
    value does not depend on the order.
    """
    uuid = full[0]["task_uuid"]
    if len(full) <= 5:
        orders = [list(p) for p in itertools.permutations(full)]
    else:
        orders = [list(full), list(reversed(full))]
        for _ in range(40):
            order = list(full)
            rng.shuffle(order)
            orders.append(order)
    reference = None
    partial_by_subset = {}
    for number, order in enumerate(orders):
        label = "%s order #%d" % (name, number)
        task = Task()
        for count, message in enumerate(order, 1):
            try:
                task = task.add(message)
            except Exception as e:
                check(False, "%s: Task.add raised %r" % (label, e))
                break
            arrived = order[:count]
            check_task(task, uuid, arrived, full, label)
            subset = frozenset(key(m) for m in arrived)
            previous = partial_by_subset.setdefault(subset, task)
            check(
                previous == task,
                "%s: same %d messages, different order, different Task"
                % (label, count),
            )
        else:
            if reference is None:
                reference = task
            check(reference == task, "%s: final Task depends on order" % (label,))
        check_stream(order, {uuid: full}, label + " (stream)")


def check_single_task_subsets(name, full, rng):
    """
    Every subset of one task's messages (for small tasks), or many random
    subsets, in a shuffled order, through the stream API.
    """
    uuid = full[0]["task_uuid"]
    if len(full) <= 7:
        subsets = []
        for size in range(1, len(full) + 1):
            subsets.extend(list(c) for c in itertools.combinations(full, size))
    else:
        subsets = []
        for _ in range(60):
            subsets.append([m for m in full if rng.random() < 0.7] or [full[0]])
        # Named corner cases: no start, no end, no inner message.
        subsets.append(full[1:])
        subsets.append([m for m in full if m["task_level"] != full[-1]["task_level"]])
        subsets.append([full[0], full[-1]])
        subsets.append(
            [m for m in full if m.get("action_status") != "started"]
        )
        subsets.append([m for m in full if m.get("action_type") is None])
    for number, subset in enumerate(subsets):
        order = list(subset)
        rng.shuffle(order)
        label = "%s subset #%d" % (name, number)
        check_stream(order, {uuid: full}, label)
        check_parser_add(order, {uuid: full}, label)


def interleave_runs(task_lists, run_lengths):
    """
    Merge several message lists, taking ``run_lengths[i % len]`` messages
    from each task in turn.
    """
    iterators = [iter(messages) for messages in task_lists]
    result = []
    turn = 0
    while iterators:
        index = turn % len(iterators)
        length = run_lengths[turn % len(run_lengths)]
        turn += 1
        taken = list(itertools.islice(iterators[index], length))
        if len(taken) < length:
            del iterators[index]
        result.extend(taken)
    return result


def random_interleaving(task_lists, rng):
    pending = [list(messages) for messages in task_lists if messages]
    result = []
    while pending:
        index = rng.randrange(len(pending))
        for _ in range(rng.choice([1, 1, 2, 3, 5])):
            if not pending[index]:
                break
            result.append(pending[index].pop(0))
        if not pending[index]:
            del pending[index]
    return result


def check_interleavings(builders, rng):
    def fresh_tasks():
        # New uuids for every scenario.
        return [builder() for builder in builders]

    scenario = 0
    for run_lengths in ([1], [2], [3], [1, 2], [2, 1, 3], [4, 1], [100]):
        for shuffle_inside in (False, True):
            for drop in (False, True):
                tasks = fresh_tasks()
                full_tasks = {t[0]["task_uuid"]: t for t in tasks}
                streams = []
                for messages in tasks:
                    messages = list(messages)
                    if shuffle_inside:
                        rng.shuffle(messages)
                    if drop and len(messages) > 1 and rng.random() < 0.6:
                        del messages[rng.randrange(len(messages))]
                    streams.append(messages)
                merged = interleave_runs(streams, run_lengths)
                label = "interleaving #%d runs=%r shuffled=%r dropped=%r" % (
                    scenario,
                    run_lengths,
                    shuffle_inside,
                    drop,
                )
                scenario += 1
                check_stream(merged, full_tasks, label)
                check_parser_add(merged, full_tasks, label)

    for number in range(25):
        tasks = fresh_tasks() + fresh_tasks()
        full_tasks = {t[0]["task_uuid"]: t for t in tasks}
        streams = []
        for messages in tasks:
            messages = list(messages)
            if number % 2:
                rng.shuffle(messages)
            if number % 3 == 0:
                messages = [m for m in messages if rng.random() < 0.8]
            streams.append(messages)
        merged = random_interleaving(streams, rng)
        label = "random interleaving #%d" % (number,)
        check_stream(merged, full_tasks, label)
        check_parser_add(merged, full_tasks, label)

    # The merged result is the same set of Task values however the tasks are
    # interleaved:
    tasks = fresh_tasks()
    results = []
    for run_lengths in ([1], [2], [3, 1], [100]):
        merged = interleave_runs([list(t) for t in tasks], run_lengths)
        parsed = list(Parser.parse_stream(merged))
        results.append(sorted(parsed, key=lambda t: t.root().task_uuid))
    for other in results[1:]:
        check(
            other == results[0],
            "the parsed tasks depend on how the tasks were interleaved",
        )


def main():
    rng = random.Random(20240913)
    builders = [solo_task, flat_task, empty_task, nested_task, remote_task]
    for builder in builders:
        full = builder()
        # Sanity check of the model itself on the in-order messages.
        assert len(set(key(m) for m in full)) == len(full), builder.__name__
        check_single_task_orders(builder.__name__, full, rng)
        check_single_task_subsets(builder.__name__, full, rng)
    check_interleavings(builders, rng)

    if FAILURES:
        print("%d check(s) failed" % (len(FAILURES),))
        return 1
    print("all checks passed")
    return 0


if __name__ == "__main__":
    sys.exit(main())
