#!/bin/sh
# usage: tools_confirm_seed.sh <name> <patch.diff> <demo.py>
# Confirms in a scratch git worktree of /repo (removed afterwards): demo passes without the patch,
# fails with it, and the 404 stable baseline tests still pass with it.  Prints one RESULT line.
NAME=$1; PATCH=$2; DEMO=$3
WT=/tmp/confirm/$NAME
rm -rf $WT; mkdir -p /tmp/confirm
git -C /repo worktree add -q --detach $WT HEAD || exit 3
cd $WT
PYTHONPATH=$WT timeout 300 /venv/bin/python $DEMO >/tmp/confirm/$NAME.pristine.log 2>&1; rc0=$?
git apply $PATCH || { echo "RESULT $NAME patch-does-not-apply"; git -C /repo worktree remove --force $WT; exit 3; }
files=$(git diff --stat | tail -1)
PYTHONPATH=$WT timeout 300 /venv/bin/python $DEMO >/tmp/confirm/$NAME.patched.log 2>&1; rc1=$?
PYTHONPATH=$WT /venv/bin/python -m pytest -q -p no:cacheprovider --timeout=900 --continue-on-collection-errors --junitxml=/tmp/confirm/$NAME.xml eliot >/tmp/confirm/$NAME.tests.log 2>&1
imp=$(PYTHONPATH=$WT /venv/bin/python -c "import eliot; print(eliot.__file__)")
/venv/bin/python - /tmp/confirm/$NAME.xml <<'PY' > /tmp/confirm/$NAME.base 2>&1
import sys, json, xml.etree.ElementTree as ET
want = set(json.load(open('/root/.vp/BASELINE.json'))['stable_pass'])
ok = set()
for tc in ET.parse(sys.argv[1]).getroot().iter('testcase'):
    if not any(ch.tag in ('failure', 'error', 'skipped') for ch in tc):
        ok.add('%s::%s' % (tc.get('classname'), tc.get('name')))
missing = sorted(want - ok)
print("stable_missing=%d" % len(missing), missing[:5])
PY
base=$(cat /tmp/confirm/$NAME.base)
cd /; git -C /repo worktree remove --force $WT
echo "RESULT $NAME demo_pristine_rc=$rc0 demo_patched_rc=$rc1 $base import=$imp diffstat=[$files]"
