#!/venv/bin/python
"""Regenerates MANIFEST.json from the checker modules (EXPLANATION / ASSUMPTIONS)."""
import importlib, json, sys
sys.path.insert(0, "/verif")
TECH = {
 "C01": "static analysis: writer/reader key-table agreement by constant folding + must-key dataflow; must-pass-through on CFGs (referenced rules of C02/C04/C08/C09/C10/C13)",
 "C02": "static analysis: who-may-call + must-key dataflow at emission sites + occurrence counting on CFG paths + freshness/alias check of TaskLevel arithmetic",
 "C03": "static analysis: CFG path rules (edge dominance, exactly-once counting), branch-polarity check of the success test, dependency of status on the exception parameter, MRO-lookup rules",
 "C04": "static analysis: typestate/pairing of ContextVar set/reset by token provenance and must-pass-through to every exit (incl. exceptional and generator-close edges)",
 "C05": "static analysis: ownership (sole-carrier) analysis of the context variable; type-directed scan of stores into process-global state",
 "C06": "static analysis: encoder/decoder sibling agreement by constant folding (and regex AST), atomic test-and-set idiom recognition on the CFG, value provenance",
 "C07": "static analysis: interprocedural exception-containment (effect) analysis, least fixed point over a typed call graph; failure-recursion cut analysis; key-domain analysis of keyword splats",
 "C08": "static analysis: CFG path rules on the fan-out/report loops (loop totality, exactly-once counting), guard/constant agreement by folding, who-may-call",
 "C09": "static analysis: control-dependence slice of the completion statement, must-pass-through and edge dominance on the parser's CFGs",
 "C10": "static analysis: exactly-once/ordering path rules with method-value alias resolution, value provenance of the written line, sibling agreement of serializer definitions",
 "C11": "static analysis: must-pass-through chain (sync before acknowledging) across emission site -> Logger.write -> send -> FileDestination, no-asynchrony scan",
 "C12": "static analysis: ordering/pairing rules on Destinations.add with constant propagation for infeasible paths; lock-discipline analysis (known finding)",
 "C13": "static analysis: may-alias/freshness dataflow with parameter-mutation summaries; exactly-once counting; handler path rules",
 "C14": "static analysis: constant folding of the allowed-field tables, CFG shape rules of validate(), emitter/validator table agreement, cleanup-registration ordering",
 "C15": "static analysis: who-may-resume (call-site ownership) + value provenance + mode-variable typestate on the wrapper's CFG",
 "C16": "static analysis: lock-discipline analysis (fields x methods x held locks) with a proved lock decorator; pairing of parallel-list appends",
 "C17": "static analysis: dependency slice of the selection predicates, loop-coverage and ordering rules",
 "C18": "static analysis: exactly-once call counting, return-value provenance on every exit, argument provenance, splat-into-named-parameters rule",
 "C19": "static analysis: loop-exit control dependence on the dequeued sentinel, ordering rules in stopService, who-may-invoke the destination, handler placement",
 "C20": "static analysis: field-table agreement by folding, loop-coverage rules (following helpers), typestate of decoded JSON (isinstance dominance), per-line counting",
}
PARTIAL = {"C01", "C02", "C05", "C06", "C09", "C10", "C11", "C12", "C14", "C17", "C18", "C20"}
checks = []
for i in range(1, 21):
    pid = "C%02d" % i
    m = importlib.import_module("sa.props.%s" % pid.lower())
    checks.append({
        "property_id": pid,
        "quick_cmd": "./bin/check %s quick" % pid,
        "thorough_cmd": "./bin/check %s thorough" % pid,
        "evidence_file": "/verif/evidence/%s.json" % pid,
        "replay_cmd_template": "./bin/check --explain {path}",
        "engine": "sa",
        "level_claimed": {
            "category": "other",
            "text": ("Static analysis of /repo's current source (no Eliot code is imported or run). " +
                     ("PARTIAL CLAIM: the check decides the named structural clauses, each a necessary condition of the behaviour, not the behaviour itself. " if pid in PARTIAL else "") +
                     m.EXPLANATION),
            "design_ref": "DESIGN.md section 3, %s" % pid,
        },
        "level_note": "Trusted / assumed: " + "; ".join(getattr(m, "ASSUMPTIONS", [])) +
                      ". Call resolution uses inferred types plus the closed tables in sa/callgraph.py (builtin-total, stdlib-trusted, receiver-name conventions); an unresolved call is treated as foreign. The source is analysed in a canonical form (sa/normalize.py, semantics-preserving rewrites N1-N19) with private helpers that are not functions of the pinned tree expanded at their call sites (sa/inline.py); a construct outside these equivalences ends the check with exit 2 (not evaluated), not with a VIOLATION.",
        "technique": TECH[pid],
    })
man = {
    "version": 1,
    "setup_cmd": "./bin/check --self-sanity",
    "hooks": {"guard": "ELIOT_VERIF", "enable": "none needed: the checks read /repo's source text; no hook or instrumentation commits exist",
              "baseline_off_cmd": "/verif/bin/baseline_off", "source_commits": [], "add_only": True},
    "engines": [{"name": "sa", "path": "/verif/sa", "serves_properties": ["C%02d" % i for i in range(1, 21)],
                 "kind_free_text": "repository-specific static analyser: program index + constant folder, per-function CFGs with exceptional edges, typed call graph, exception-containment fixed point, dataflow helpers; pure stdlib (ast)"}],
    "checks": checks,
    "notes": ("All 20 properties are decided by static analysis; every verdict is recomputed from /repo's working tree on each run. Exit 0 = all obligations discharged "
              "(known findings printed as KNOWN-FINDING), 1 = VIOLATION, 2 = ANALYSIS-ERROR (anchor vanished / unmodelled shape; never a silent pass). "
              "Genuine defects found and repaired in /repo with fix: commits are listed in known_findings.txt; one finding (C12 hand-over race) is recorded, not repaired."),
    "not_applicable": [],
}
json.dump(man, open("/verif/MANIFEST.json", "w"), indent=1)
print("MANIFEST.json written:", len(checks), "checks")
