#!/venv/bin/python
"""Copies confirmed seeded changes into /verif/seeded/<id>/ with meta.json."""
import json, os, re, shutil, sys
res = {}
for line in open("/tmp/confirm_results.txt"):
    m = re.match(r"RESULT (\S+) demo_pristine_rc=(\d+) demo_patched_rc=(\d+) stable_missing=(\d+)", line)
    if m:
        res[m.group(1)] = tuple(int(x) for x in m.groups()[1:])
det = {}
for line in open("/tmp/detect_matrix.txt"):
    m = re.match(r"DETECT (\S+)(.*)\| ERR(.*)", line)
    if m:
        det[m.group(1)] = (m.group(2).split(), m.group(3).split())
stored = 0
for name, (rc0, rc1, missing) in sorted(res.items()):
    if not (rc0 == 0 and rc1 != 0 and missing == 0):
        print("NOT CONFIRMED", name, rc0, rc1, missing)
        continue
    prop, x = name[:3], name[3:]
    src = "/tmp/wtout/%s/%s" % (prop, x)
    dst = "/verif/seeded/%s-%s" % (prop, x)
    os.makedirs(dst, exist_ok=True)
    for fn in ("patch.diff", "demo.py", "notes.md"):
        if os.path.exists(os.path.join(src, fn)):
            shutil.copy(os.path.join(src, fn), os.path.join(dst, fn))
    notes = open(os.path.join(src, "notes.md")).read() if os.path.exists(os.path.join(src, "notes.md")) else ""
    meta = {
        "property": prop,
        "origin": "independent sub-agent given only the property text and a scratch worktree (round 1)",
        "needs_to_manifest": " ".join(notes.split())[:600],
        "confirmed_by_me": {
            "command": "/verif/tools_confirm_seed.sh %s patch.diff demo.py  (scratch git worktree of /repo HEAD, removed afterwards)" % name,
            "demo_exit_without_patch": rc0, "demo_exit_with_patch": rc1,
            "baseline_stable_tests_not_passing_with_patch": missing,
        },
        "detected_by": det.get(name, ([], []))[0],
        "analysis_error_in": det.get(name, ([], []))[1],
    }
    json.dump(meta, open(os.path.join(dst, "meta.json"), "w"), indent=1)
    stored += 1
print("stored", stored)
