#!/bin/sh
# usage: tools_benign_round.sh <outdir e.g. /tmp/wtout5> <tag e.g. r5> [props...]
# For every <outdir>/Cnn/{a,b,c}: confirm the refactoring is behaviour preserving as far as can be observed (its differential
# demo exits 0 without AND with the patch; the 404 baseline tests still pass with it), run all 20 checks on a scratch copy with
# it, and store it under /verif/benign/<id>/ .  A check that exits 1 on it is a FALSE ALARM, exit 2 an analysis failure.
OUT=$1; TAG=$2; shift; shift
ONLY="$@"
sel() { if [ -z "$ONLY" ]; then ls -d $OUT/C*/; else for p in $ONLY; do echo $OUT/$p/; done; fi; }
[ -z "$ONLY" ] && { : > /tmp/confirm_results_$TAG.txt; : > /tmp/detect_matrix_$TAG.txt; }
cd /tmp
(for d in $(sel); do p=$(basename $d); for x in a b c; do [ -f $d/$x/patch.diff ] && [ -f $d/$x/demo.py ] && echo "$p-$TAG$x $d/$x/patch.diff $d/$x/demo.py"; done; done) | xargs -P ${CONFIRM_JOBS:-8} -L 1 /verif/tools_confirm_seed.sh >> /tmp/confirm_results_$TAG.txt 2>&1
(for d in $(sel); do p=$(basename $d); for x in a b c; do [ -f $d/$x/patch.diff ] && echo "$p-$TAG$x $d/$x/patch.diff"; done; done) | xargs -P 6 -L 1 /verif/tools_detect_matrix.sh >> /tmp/detect_matrix_$TAG.txt 2>&1
/venv/bin/python - $OUT $TAG <<'PY'
import json, os, re, shutil, sys
OUT, TAG = sys.argv[1], sys.argv[2]
res, det = {}, {}
for line in open("/tmp/confirm_results_%s.txt" % TAG):
    m = re.match(r"RESULT (\S+) demo_pristine_rc=(\d+) demo_patched_rc=(\d+) stable_missing=(\d+)", line)
    if m: res[m.group(1)] = tuple(int(x) for x in m.groups()[1:])
for line in open("/tmp/detect_matrix_%s.txt" % TAG):
    m = re.match(r"DETECT (\S+)(.*)\| ERR(.*)", line)
    if m: det[m.group(1)] = (m.group(2).split(), m.group(3).split())
for name, (rc0, rc1, missing) in sorted(res.items()):
    prop = name[:3]; x = name[-1]
    ok = rc0 == 0 and rc1 == 0 and missing == 0
    d, e = det.get(name, ([], []))
    print("%-10s behaviour-preserving-as-observed=%s FALSE-ALARMS=%s ANALYSIS-ERRORS=%s" % (name, ok, d, e))
    if not ok:
        continue
    src = "%s/%s/%s" % (OUT, prop, x); dst = "/verif/benign/%s" % name
    os.makedirs(dst, exist_ok=True)
    for fn in ("patch.diff", "demo.py", "notes.md"):
        if os.path.exists(os.path.join(src, fn)): shutil.copy(os.path.join(src, fn), os.path.join(dst, fn))
    notes = open(os.path.join(src, "notes.md")).read() if os.path.exists(os.path.join(src, "notes.md")) else ""
    json.dump({"property": prop, "origin": "independent sub-agent asked for a behaviour-preserving refactoring of the code the property depends on (round %s)" % TAG,
               "argument": " ".join(notes.split())[:600],
               "confirmed_by_me": {"command": "/verif/tools_confirm_seed.sh (scratch git worktree of /repo HEAD, removed afterwards)", "demo_exit_without_patch": rc0,
                                   "demo_exit_with_patch": rc1, "baseline_stable_tests_not_passing_with_patch": missing},
               "alarms_at_first_run": d, "analysis_errors_at_first_run": e}, open(os.path.join(dst, "meta.json"), "w"), indent=1)
PY
rm -rf /tmp/confirm
