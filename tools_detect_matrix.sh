#!/bin/sh
# usage: tools_detect_matrix.sh <name> <patch>  -> prints "DETECT <name> <ids with rc=1> | ERR <ids with rc=2>"
NAME=$1; P=$2
D=$(mktemp -d /dev/shm/detXXXX)
cp -r /repo/eliot /repo/docs /repo/README.rst /repo/setup.py $D/ && (cd $D && patch -p1 -s < $P) || { echo "DETECT $NAME PATCHFAIL"; rm -rf $D; exit 0; }
V=""; E=""
for i in C01 C02 C03 C04 C05 C06 C07 C08 C09 C10 C11 C12 C13 C14 C15 C16 C17 C18 C19 C20; do
  (cd /verif && ./bin/check $i quick --root $D --out $D/ev >/dev/null 2>&1); rc=$?
  [ $rc -eq 1 ] && V="$V $i"; [ $rc -eq 2 ] && E="$E $i"
done
rm -rf $D
echo "DETECT $NAME$V | ERR$E"
