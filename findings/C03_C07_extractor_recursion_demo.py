import warnings, sys, time
warnings.simplefilter("ignore")
from eliot import start_action, register_exception_extractor, add_destinations
out=[]
add_destinations(out.append)
def bad(e): raise RuntimeError("extractor broken")
register_exception_extractor(Exception, bad)
t=time.time()
try:
    with start_action(action_type="a"):
        raise ValueError("app error")
except BaseException as e:
    print("escaped:", type(e).__name__, str(e)[:80])
print("elapsed", time.time()-t, "messages", len(out))
print([m.get("message_type") or m.get("action_status") for m in out][:10])
