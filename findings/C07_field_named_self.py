"""C07: a field named ``self`` made logging raise TypeError from inside Eliot.

Before the fix: write_traceback() raised ``TypeError: Message.bind() got multiple values for argument
'self'`` when a registered exception extractor returned a field called "self", and
log_message("t", self=1) raised inside an action (Action.log) although it worked outside one.
Exit 0 when logging returns normally and the field is delivered, 1 otherwise.
"""
import sys
import eliot
from eliot import register_exception_extractor, write_traceback, start_action, log_message

msgs = []
eliot.add_destinations(msgs.append)
bad = []


class E(Exception):
    pass


register_exception_extractor(E, lambda e: {"self": 1})
try:
    raise E()
except E:
    try:
        write_traceback()
        if msgs[-1].get("self") != 1:
            bad.append("traceback message lacks the extracted field: %r" % msgs[-1])
    except Exception as ex:
        bad.append("write_traceback raised %r" % ex)

try:
    with start_action(action_type="x"):
        log_message("t", self=2)
        try:
            raise E()
        except E:
            write_traceback()
    if not any(m.get("message_type") == "t" and m.get("self") == 2 for m in msgs):
        bad.append("message with field self not delivered inside an action")
except Exception as ex:
    bad.append("logging inside an action raised %r" % ex)

for b in bad:
    print("VIOLATED:", b)
print("OK" if not bad else "FAIL")
sys.exit(1 if bad else 0)
