import sys, io, subprocess
p = subprocess.run(["/venv/bin/python","-c","import sys; sys.argv=['x']; from eliot.prettyprint import _main; _main()"], input=b'5\n[1]\n"s"\nnull\n{"a":1}\nnot json\n', capture_output=True)
print(p.returncode); print(p.stdout.decode()); print(p.stderr.decode()[-600:])
