import warnings; warnings.simplefilter("ignore")
from eliot._generators import eliot_friendly_generator_function
from eliot import log_call, MemoryLogger
@eliot_friendly_generator_function
def g():
    x = yield 1
    return ("ret", x)
it = g()
print(next(it))
try:
    it.send(5)
except StopIteration as e:
    print("C15 return value:", e.value)

# C18
@log_call
def f(logger): return logger
try:
    print("C18 f(1) ->", f(1))
except BaseException as e:
    print("C18 raised", type(e), e)
@log_call
def f2(action_type): return action_type
try:
    print("C18 f2(1) ->", f2(1))
except BaseException as e:
    print("C18 raised", type(e), e)
@log_call
def f3(_serializers=None): return 3
try:
    print("C18 f3(5) ->", f3(5))
except BaseException as e:
    print("C18 raised", type(e), e)
