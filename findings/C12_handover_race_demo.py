import sys, threading, warnings
warnings.simplefilter("ignore")
from eliot._output import Destinations
import eliot._output as O
d = Destinations()
at_dest = threading.Event(); go_on = threading.Event()
def tracer(frame, event, arg):
    if frame.f_code is Destinations.send.__code__:
        def local(frame, event, arg):
            if event == "line":
                import linecache
                src = linecache.getline(frame.f_code.co_filename, frame.f_lineno).strip()
                if src == "dest(message)" and not at_dest.is_set():
                    at_dest.set(); go_on.wait()
            return local
        return local
    return None
def logger_thread():
    sys.settrace(tracer)
    d.send({"n": "racing"})
    sys.settrace(None)
d.send({"n": "early"})
t = threading.Thread(target=logger_thread); t.start()
at_dest.wait()
got = []
d.add(got.append)          # first add_destinations: hand-over completes
go_on.set(); t.join()
d.send({"n": "late"})
print("delivered:", got)
