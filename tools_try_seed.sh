#!/bin/sh
# usage: tools_try_seed.sh <patch.diff> [props...]  -- apply to a scratch copy, run quick checks, print verdict lines
P=$1; shift
D=$(mktemp -d /dev/shm/seedXXXX)
cp -r /repo/eliot /repo/docs /repo/README.rst /repo/setup.py $D/ && (cd $D && patch -p1 -s < $P) || { echo "PATCH FAILED"; rm -rf $D; exit 3; }
IDS="$@"; [ -z "$IDS" ] && IDS="C01 C02 C03 C04 C05 C06 C07 C08 C09 C10 C11 C12 C13 C14 C15 C16 C17 C18 C19 C20"
for i in $IDS; do
  out=$(cd /verif && ./bin/check $i quick --root $D --out $D/ev 2>&1); rc=$?
  echo "$i rc=$rc $(echo "$out" | grep -c '^  ') finding-lines"
  [ $rc -ne 0 ] && echo "$out" | grep -v "^Traceback\|^  File\|^    " | head -${LINES_MAX:-4} | cut -c1-400
done
rm -rf $D
